"""Panic-site discharge over a call-graph closure: engine D plus a closed list of checked axioms."""
from . import cfg, dataflow as df, ranges
from .facts import callee_of

AXIOMS = {
    "AX1": "indexing by RangeFull is total",
    "AX2": "a counter that only ever receives small constants or itself plus a small constant cannot overflow 64 bits "
           "(2^64 increments are not executable)",
    "AX3": "from_utf8(d).unwrap() where d is the first part of split_at_cond(_, |c| !P(c)) and P only accepts ASCII bytes: "
           "every byte of d satisfies P, ASCII is valid UTF-8",
    "AX4": "offsetof(bytes, r) and bytes[..offsetof(bytes, r)] where r derives from bytes through parser remainders: every "
           "sub-parser returns a suffix input[k..] of its argument (their own slicing obligations are discharged), so r is a "
           "suffix of bytes, its address is not below bytes' and the distance is at most bytes.len()",
    "AX5": "derive_builder's build() only fails for a field without default; the required field's setter is applied on the chain",
    "AX8": "the parallel driver's applied count is the final value of an atomic that starts at series_patches.len() and is only ever "
           "loaded or fetch_min-ed, so it never exceeds that length",
    "AX6": "From<ErrorBuilder> for ParseError (NoMatch arm unreachable!) is only called on values whose NoMatch variant was branched away",
}


# Declared struct invariants (checked inductively by the range engine: assumed on entry of &self / &mut self methods, proven at every
# construction and at every return of a &mut self method; C14-R7 checks that nothing else writes the fields).
STRUCT_INVARIANTS = {
    "libpatch::util::search::SearcherIterator": [("v", "position", "#", "haystack", 0)],     # position <= haystack.len()
}


def order_callee_first(cg, scope):
    order, seen = [], set()

    def visit(f):
        stack = [(f, iter(sorted(c for c in cg.callees(f) if c in scope)))]
        seen.add(f)
        while stack:
            node, it = stack[-1]
            nxt = next(it, None)
            if nxt is None:
                order.append(node)
                stack.pop()
            elif nxt not in seen:
                seen.add(nxt)
                stack.append((nxt, iter(sorted(c for c in cg.callees(nxt) if c in scope))))
    for f in sorted(scope):
        if f not in seen:
            visit(f)
    return order


def str_slice_guarded(fn, bb, t):
    """s[k..] / s[..k] / s[a..b] with constant bounds, dominated by the true edge of s.starts_with(<ASCII literal of length >= bound>):
    the first len(literal) bytes are ASCII, so every offset up to it is a char boundary within the string."""
    from . import guards
    base = df.operand_expr(fn, t["args"][0])
    rg = df.operand_expr(fn, t["args"][1])
    if not (isinstance(rg, tuple) and rg[0] == "agg" and "ops::range::Range" in rg[1]):
        return False
    bounds = [x for x in rg[3]]
    if not bounds or not all(isinstance(x, tuple) and x[0] == "const" and isinstance(x[1], int) for x in bounds):
        return False
    need = max(x[1] for x in bounds)
    for g in guards.find_bool_guards(fn, lambda e: df.is_call(e, "<impl str>::starts_with") and len(e[2]) == 2):
        s_, lit = g["expr"][2]
        if s_ != base or not (isinstance(lit, tuple) and lit[0] == "const" and isinstance(lit[1], str)):
            continue
        if all(ord(ch) < 128 for ch in lit[1]) and len(lit[1]) >= need and bb in cfg.dominated_by_edge(fn, g["true_edge"]):
            return True
    return False


def library_obligations(prog, scope):
    """One obligation per external call that is panicky / unknown / a print; counts of the reviewed-total and handled ones."""
    from . import libcalls
    out, counts = [], {}
    for fid in sorted(scope):
        fn = prog.fns.get(fid)
        if fn is None:
            continue
        for bb, t in fn.calls():
            if fn.blocks[bb]["cleanup"]:
                continue
            c = callee_of(t)
            rp = c.get("rpath") or c.get("path") or "?"
            if rp in prog.fns:
                continue
            cls, why = libcalls.classify(rp, t)
            counts[cls] = counts.get(cls, 0) + 1
            if cls == "getopts":
                okg, why = libcalls.getopts_check(prog, fn, bb, t, rp)
                o = ranges.Obligation(fn, bb, t, "libcall", rp, okg, why)
                o.libclass = cls
                o.axiom = None
                out.append(o)
            if cls == "panicky" and rp.endswith("for str>::index") and str_slice_guarded(fn, bb, t):
                counts["total"] = counts.get("total", 0) + 1
                counts[cls] -= 1
                continue
            if cls in ("panicky", "unknown", "print"):
                o = ranges.Obligation(fn, bb, t, "libcall", rp, False, "%s: %s" % (cls, why))
                o.libclass = cls
                o.axiom = None
                out.append(o)
    return out, counts


def analyse_scope(prog, cg, scope, libcalls=False):
    """Returns (obligations, analyzer). Obligations carry .ok and, when discharged by an axiom, .axiom.
    libcalls=True adds one obligation per external call that is not in the reviewed-total table (see libcalls.py)."""
    an = ranges.Analyzer(prog)
    an.invariants = {adt: invs for adt, invs in STRUCT_INVARIANTS.items() if adt in prog.adts}
    order = order_callee_first(cg, scope)
    results = {}
    for fid in order:
        ins, outs, obl = an.analyze(prog.fns[fid])
        results[fid] = obl
        an.summaries[fid] = an.summarize(prog.fns[fid], outs)
        extra = ax8_parallel_count(prog, cg, prog.fns[fid])
        if extra:
            if an.summaries[fid] is None:
                an.summaries[fid] = {"facts": [], "optf": {}, "tag": {}}
            an.summaries[fid]["facts"] = list(an.summaries[fid]["facts"]) + extra
            an.assumed = getattr(an, "assumed", []) + [("AX8", fid)]
    # call-site facts that hold at every call site become entry assumptions (excluded enum variants of parameters)
    changed = []
    for fid in order:
        callers = cg.callers(fid)
        sites = an.site_nottag.get(fid, [])
        nsites = len([s for s in cg.sites_to(fid) if s.term is not None and s.kind == "call"])
        if not callers or any(c not in scope for c in callers) or len(sites) < nsites or not sites:
            continue
        fn = prog.fns[fid]
        assume = {}
        for i in range(fn.arg_count):
            ex = None
            for s in sites:
                cur = set(s.get(i, frozenset()))
                ex = cur if ex is None else (ex & cur)
            if ex:
                assume["L%d" % (i + 1)] = frozenset(ex)
        if assume:
            an.entry_nottag[fid] = assume
            changed.append(fid)
    # closures handed to Option::map: the payload range at the (only) call site bounds the closure's parameter
    for fid, sites in sorted(an.site_bounds.items()):
        if fid not in scope or fid not in prog.fns:
            continue
        uses = [s for s in cg.sites_to(fid)]
        if len(uses) != len(sites) or any(s.caller.id not in scope for s in uses):
            continue
        assume = {}
        for pth in sites[0]:
            los, his = [s.get(pth, (None, None))[0] for s in sites], [s.get(pth, (None, None))[1] for s in sites]
            lo = None if None in los else min(los)
            hi = None if None in his else max(his)
            if lo is not None or hi is not None:
                assume[pth] = (lo, hi)
        if assume:
            an.entry_bounds[fid] = assume
            if fid not in changed:
                changed.append(fid)
    # closures driven over a Range by find / any / all / ...: facts of the (only) call site about the item and the captured values
    for fid, sites in sorted(an.site_facts.items()):
        if fid not in scope or fid not in prog.fns:
            continue
        uses = [s for s in cg.sites_to(fid)]
        if len(sites) != 1 or len(uses) != 1 or any(s.caller.id not in scope for s in uses):
            continue
        an.entry_facts[fid] = sites[0]
        if fid not in changed:
            changed.append(fid)
    for fid in changed:
        an.site_nottag = {}
        ins, outs, obl = an.analyze(prog.fns[fid])
        results[fid] = obl
    allobl = []
    for fid in order:
        for o in results[fid]:
            o.axiom = None
            if o.ok is False:
                ax = try_axioms(prog, cg, an, o, scope)
                if ax:
                    o.ok = True
                    o.axiom = ax[0]
                    o.detail = "%s: %s" % (ax[0], ax[1])
            allobl.append(o)
    if libcalls:
        lo, counts = library_obligations(prog, scope)
        allobl += lo
        an.lib_counts = counts
    return allobl, an


# ---- axioms -------------------------------------------------------------------------------------------------------
def try_axioms(prog, cg, an, o, scope):
    fn, t = o.fn, o.term
    for f in (ax2_counter, ax3_ascii_utf8, ax4_offsetof, ax5_builder):
        r = f(prog, cg, an, o, scope)
        if r:
            return r
    return None


def ax2_counter(prog, cg, an, o, scope):
    if o.kind != "overflow" or not o.what.startswith("Add"):
        return None
    fn, t = o.fn, o.term
    a, b = t["ops"]
    if not (b.get("k") == "const" and 0 <= b.get("int", -1) <= 65536 and a.get("k") in ("copy", "move")):
        return None
    # the incremented value is a copy of a field path P; every write to P in fn is a small constant or P + small constant
    src = a["pl"]
    d = df.defs_of(fn)
    if "p" not in src:
        one = d.single(src["l"])
        if one and one[0] == "stmt" and one[3]["rv"]["k"] == "use" and one[3]["rv"]["op"].get("k") in ("copy", "move"):
            src = one[3]["rv"]["op"]["pl"]
    if "p" not in src:
        # a plain local counter
        root, names = src["l"], None
    else:
        root, names = src["l"], [p.get("name", p.get("f")) if isinstance(p, dict) else p for p in src["p"]]
    writes = []
    for bb, idx, s in fn.stmts():
        if s["k"] != "assign" or s["lhs"]["l"] != root:
            continue
        ln = [p.get("name", p.get("f")) if isinstance(p, dict) else p for p in s["lhs"].get("p", [])] or None
        if ln != names:
            if ln is None or names is None:
                # whole-local write next to a field counter: only accepted when it comes from a call (constructor), see below
                if names is not None and ln is None:
                    return None
            continue
        writes.append(s)
    if not writes:
        return None
    for s in writes:
        rv = s["rv"]
        if rv["k"] == "use" and rv["op"].get("k") == "const" and 0 <= rv["op"].get("int", -1) <= 65536:
            continue
        if rv["k"] == "use" and rv["op"].get("k") in ("copy", "move"):
            e = df.operand_expr(fn, rv["op"])
            # (AddWithOverflow(P, c)).0
            inner = e[1] if isinstance(e, tuple) and e[0] == "field" and e[2] == 0 else e
            if isinstance(inner, tuple) and inner[0] == "bin" and inner[1].startswith("Add") and df.is_const(inner[3]) and \
                    isinstance(inner[3][1], int) and 0 <= inner[3][1] <= 65536:
                continue
        return None
    return ("AX2", "counter %s only receives constants and itself + constant (%d write sites)" % (
        ".".join(str(n) for n in (names or ["_%d" % root])), len(writes)))


def ascii_predicate(prog, fid, depth=0):
    fn = prog.fns.get(fid)
    if fn is None or depth > 2:
        return False
    # decided on values when the predicate can be evaluated (comparisons, or the byte classes of core): it accepts ASCII bytes only
    try:
        from . import seqmodel
        acc = {c for c in range(256) if seqmodel.eval_pure(fn, ([0] * (fn.arg_count - 1)) + [c])}
        return bool(acc) and max(acc) < 128
    except Exception:
        pass
    ok_cmp = False
    for bb, t in fn.calls():
        if fn.blocks[bb]["cleanup"]:
            continue
        c = callee_of(t)
        if c.get("rpath") in prog.fns:
            return False
    for bb, idx, s in fn.stmts():
        if s["k"] == "assign" and s["rv"]["k"] == "bin":
            for side in ("a", "b"):
                o = s["rv"][side]
                if o.get("k") == "const":
                    if not (o.get("ty") == "u8" and 0 <= o.get("int", 999) < 128):
                        return False
                    ok_cmp = True
            if s["rv"]["op"] not in ("Ge", "Le", "Eq", "Gt", "Lt", "BitAnd", "BitOr"):
                return False
    return ok_cmp


def accepted_bytes(prog, fn, depth=0):
    """The set of byte values a small predicate (a function or closure over one u8) answers true for, or None."""
    from . import seqmodel
    if fn is None or depth > 2:
        return None
    nargs = fn.arg_count
    try:
        return {c for c in range(256) if seqmodel.eval_pure(fn, ([0] * (nargs - 1)) + [c])}
    except seqmodel.Unsupported:
        pass
    # |c| P(c)  or  |c| !P(c): one call of a local predicate on the parameter
    calls = [(bb, tt) for bb, tt in fn.calls() if not fn.blocks[bb]["cleanup"]]
    if len(calls) != 1 or (callee_of(calls[0][1]).get("rpath") or "") not in prog.fns:
        return None
    inner = accepted_bytes(prog, prog.fns[callee_of(calls[0][1])["rpath"]], depth + 1)
    if inner is None:
        return None
    nots = [s for bb, idx, s in fn.stmts() if s["k"] == "assign" and s["rv"]["k"] == "un" and s["rv"]["op"] == "Not"]
    others = [s for bb, idx, s in fn.stmts() if s["k"] == "assign" and s["rv"]["k"] in ("bin", "agg")]
    if others or len(nots) > 1:
        return None
    return (set(range(256)) - inner) if nots else inner


def ax3_ascii_utf8(prog, cg, an, o, scope):
    if o.kind != "unwrap":
        return None
    fn, t = o.fn, o.term
    e = df.operand_expr(fn, t["args"][0])
    if not df.is_call(e, "core::str::converts::from_utf8"):
        return None
    arg = e[2][0]
    # (input.split_at(input.iter().take_while(|c| P(c)).count())).0 : the longest prefix whose bytes all satisfy P
    if isinstance(arg, tuple) and arg[0] == "field" and arg[2] == 0 and df.is_call(arg[1], "<impl [T]>::split_at") and len(arg[1][2]) == 2:
        src, n = arg[1][2]
        if df.is_call(n, "Iterator::count") and df.is_call(n[2][0], "Iterator::take_while") and len(n[2][0][2]) == 2 and \
                df.is_call(n[2][0][2][0], "<impl [T]>::iter") and n[2][0][2][0][2][0] == src:
            clos = n[2][0][2][1]
            if isinstance(clos, tuple) and clos[0] == "closure" and clos[1] in prog.fns:
                acc = accepted_bytes(prog, prog.fns[clos[1]])
                if acc is not None and acc and max(acc) < 128:
                    return ("AX3", "the slice is the prefix of bytes accepted by the take_while predicate, which only accepts ASCII bytes %s" % sorted(acc)[:12])
        return None
    # (split_at_cond(input, closure)).0
    if not (isinstance(arg, tuple) and arg[0] == "field" and arg[2] == 0 and df.is_call(arg[1], "parser::split_at_cond")):
        return None
    clos = arg[1][2][1]
    if not (isinstance(clos, tuple) and clos[0] == "closure" and clos[1] in prog.fns):
        return None
    cl = prog.fns[clos[1]]
    # closure = |c| !P(c)
    callees = [callee_of(tt).get("rpath") for bb, tt in cl.calls() if not cl.blocks[bb]["cleanup"]]
    if len(callees) != 1 or callees[0] not in prog.fns:
        return None
    nots = [s for bb, idx, s in cl.stmts() if s["k"] == "assign" and s["rv"]["k"] == "un" and s["rv"]["op"] == "Not" and s["lhs"]["l"] == 0]
    if len(nots) != 1:
        return None
    if not ascii_predicate(prog, callees[0]):
        return None
    # split_at_cond itself: split_at(input, position(iter(input), |c| pred(c)).unwrap_or(len(input)))
    sac = prog.fns.get(arg[1][1])
    if sac is None:
        return None
    r0 = df.local_expr(sac, 0)
    shape = df.is_call(r0, "<impl [T]>::split_at") and df.is_call(r0[2][1], "Option::<T>::unwrap_or") and \
        df.mentions(r0[2][1], lambda x: df.is_call(x, "Iterator>::position"))
    if not shape:
        return None
    return ("AX3", "digits = split_at_cond(_, |c| !%s(c)).0 and %s only accepts ASCII bytes" % (callees[0].split("::")[-1], callees[0].split("::")[-1]))


def is_offsetof(prog, path):
    fn = prog.fns.get(path)
    if fn is None or fn.arg_count != 2:
        return False
    # body: (slice.as_ptr() as usize) - (container.as_ptr() as usize)
    e = df.local_expr(fn, 0)
    inner = e[1] if isinstance(e, tuple) and e[0] == "field" and e[2] == 0 else e
    if not (isinstance(inner, tuple) and inner[0] == "bin" and inner[1].startswith("Sub")):
        return False
    a, b = inner[2], inner[3]
    def ptr_of(x, name):
        return isinstance(x, tuple) and x[0] == "cast" and df.is_call(x[1], "::as_ptr") and \
            isinstance(x[1][2][0], tuple) and x[1][2][0][0] == "param" and x[1][2][0][2] == name
    return ptr_of(a, fn.local_name(2)) and ptr_of(b, fn.local_name(1))


def derived_from(fn, op, root_local):
    return root_local in df.operand_trace(fn, op)


def ax4_offsetof(prog, cg, an, o, scope):
    fn, t = o.fn, o.term
    if o.kind == "overflow" and o.what.startswith("Sub") and is_offsetof(prog, fn.id):
        # every call site passes a slice derived from the container
        sites = [s for s in cg.sites_to(fn.id) if s.term is not None]
        if not sites:
            return None
        for s in sites:
            a0, a1 = s.term["args"][0], s.term["args"][1]
            if a0.get("k") not in ("copy", "move"):
                return None
            root = list(df.operand_trace(s.caller, a0))
            params = [l for l in root if 1 <= l <= s.caller.arg_count]
            if not params or not any(derived_from(s.caller, a1, p) for p in params):
                return None
        return ("AX4", "offsetof(container, slice): at all %d call sites the slice derives from the container" % len(sites))
    if o.kind == "index" and "RangeTo" in o.what:
        rng = df.operand_expr(fn, t["args"][1])
        base = t["args"][0]
        if isinstance(rng, tuple) and rng[0] == "agg" and rng[3] and df.is_call(rng[3][0], "parser::offsetof") and is_offsetof(prog, rng[3][0][1]):
            cont = rng[3][0][2][0]
            if df.operand_expr(fn, base) == cont:
                return ("AX4", "bytes[..offsetof(bytes, r)] with r a remainder of bytes")
    return None


def ax5_builder(prog, cg, an, o, scope):
    if o.kind != "unwrap":
        return None
    fn, t = o.fn, o.term
    e = df.operand_expr(fn, t["args"][0])
    if not (isinstance(e, tuple) and e[0] == "call" and e[1].endswith("Builder::<'a, Line>::build") or df.is_call(e, "Builder::build")):
        return None
    build = prog.fns.get(e[1])
    if build is None:
        return None
    # required fields: those whose None discriminant leads to an Err return in build()
    required = set()
    from . import patterns as pt
    for sw in pt.discr_switches(build, lambda ex, rv: isinstance(ex, tuple) and ex[0] == "field"):
        none_edge = sw["edges"].get("None")
        if not none_edge:
            continue
        r = cfg.reachable(build, [none_edge[1]])
        errs = any(s["k"] == "assign" and s["rv"]["k"] == "agg" and s["rv"].get("variant") == "Err" for b in r for s in build.blocks[b]["stmts"]) or \
            any(build.blocks[b]["term"]["k"] == "call" and "Err" in str(build.blocks[b]["term"].get("dty")) and
                "from" in (callee_of(build.blocks[b]["term"]).get("rpath") or "") for b in r)
        somes = sw["edges"].get("Some")
        only_default = False
        # a field with a default does not return from the None arm
        rets_in_none = [b for b in r if build.blocks[b]["term"]["k"] == "return"]
        r_some = cfg.reachable(build, [somes[1]]) if somes else set()
        if errs and not (r >= r_some and False):
            # does the None arm rejoin the Some arm?  (default) or leave with Err (required)
            joined = bool(r & r_some - set(cfg.exits(build)))
            if not joined or all(not (x in r_some) for x in r if build.blocks[x]["term"]["k"] != "return" and x != none_edge[1]):
                required.add(sw["expr"][2])
    if not required:
        return None
    missing = [f for f in required if not df.mentions_deep(fn, e, lambda x, f=f: df.is_call(x, "Builder::<'a, Line>::%s" % f))]
    if missing:
        return None
    return ("AX5", "build() requires %s; each setter is applied on the builder chain" % sorted(required))


def ax8_parallel_count(prog, cg, fn):
    """Assumed post-condition  ret.Ok.applied_patches <= len(param1.series_patches)  for a driver whose count is an atomic minimum."""
    aggs = [s for bb, idx, s in fn.stmts() if s["k"] == "assign" and s["rv"]["k"] == "agg" and (s["rv"].get("adt") or "").endswith("apply::ApplyResult")]
    if len(aggs) != 1:
        return None
    s = aggs[0]
    op = s["rv"]["ops"][s["rv"]["fields"].index("applied_patches")]
    e = df.operand_expr(fn, op)
    if not (df.is_call(e, "atomic::Atomic::<usize>::load") or df.is_call(e, "AtomicUsize::load")):
        return None
    src = e[2][0]
    if not (df.is_call(src, "atomic::Atomic::<usize>::new") or df.is_call(src, "AtomicUsize::new")):
        return None
    init = src[2][0]
    ok_init = df.is_call(init, "::len") and isinstance(init[2][0], tuple) and init[2][0][0] == "field" and init[2][0][2] == "series_patches" and \
        isinstance(init[2][0][1], tuple) and init[2][0][1][0] == "param" and init[2][0][1][1] == 1
    if not ok_init:
        return None
    for f in prog.fns.values():
        if f.crate != fn.crate:
            continue
        for bb, t in f.calls():
            p = callee_of(t).get("rpath") or ""
            if ("sync::atomic::Atomic::<usize>::" in p or "AtomicUsize::" in p) and p.split("::")[-1] not in ("new", "load", "fetch_min"):
                return None
    Zv = ranges.Z
    return [(("v", "L0.@Ok.0.applied_patches"), ("#", "L1.series_patches"), 0), (Zv, ("v", "L0.@Ok.0.applied_patches"), 0)]
