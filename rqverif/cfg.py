"""Engine B: per-function control-flow reasoning over extracted MIR.

All functions work on the normal-flow CFG (unwind edges excluded) unless
`unwind=True` is given.  An *edge* is a pair (from_bb, to_bb); `disabled` is a
set of edges to ignore (used for path-constant pruning).
"""
from collections import deque


def succs(fn, bb, disabled=None, unwind=False):
    out = fn.succs(bb, unwind=unwind)
    if disabled:
        out = [s for s in out if (bb, s) not in disabled]
    return out


def reachable(fn, start, disabled=None, blocked=None, unwind=False):
    """Blocks reachable from `start` (iterable or single) without entering a block in `blocked`
    (a start block that is itself blocked is not entered either)."""
    if isinstance(start, int):
        start = [start]
    blocked = blocked or set()
    seen = set()
    dq = deque()
    for s in start:
        if s not in seen and s not in blocked:
            seen.add(s)
            dq.append(s)
    while dq:
        b = dq.popleft()
        for s in succs(fn, b, disabled, unwind):
            if s in blocked or s in seen:
                continue
            seen.add(s)
            dq.append(s)
    return seen


def reachable_from_after(fn, bb, disabled=None, blocked=None):
    """Blocks reachable from the *successors* of bb (i.e. strictly after its terminator)."""
    return reachable(fn, [s for s in succs(fn, bb, disabled) if not (blocked and s in blocked)], disabled, blocked)


def dominated_by_edge(fn, edge, disabled=None):
    """Set of blocks every entry path to which crosses `edge`."""
    dis = set(disabled or ())
    dis.add(edge)
    base = reachable(fn, 0, disabled)
    without = reachable(fn, 0, dis)
    return base - without


def dominated_by_block(fn, bb, disabled=None):
    """Blocks (other than bb) that are only reachable through bb."""
    base = reachable(fn, 0, disabled)
    if bb == 0:
        return base - {0}
    without = reachable(fn, 0, disabled, blocked={bb})
    return base - without - {bb}


def dominates(fn, a, b, disabled=None):
    """Block a dominates block b (a == b counts)."""
    if a == b:
        return True
    return b in dominated_by_block(fn, a, disabled)


def must_pass(fn, src, dst, through, disabled=None, after_src=True):
    """Every path from src (after its terminator if after_src) to dst crosses a block of `through`.
    True also when dst is unreachable from src."""
    through = set(through)
    if after_src:
        start = [s for s in succs(fn, src, disabled) if s not in through]
    else:
        if src in through:
            return True
        start = [src]
    r = reachable(fn, start, disabled, blocked=through)
    return dst not in r


def exits(fn):
    """Return blocks (normal exits)."""
    return [i for i, b in enumerate(fn.blocks) if b["term"]["k"] == "return"]


def return_blocks_reaching(fn, src, disabled=None):
    r = reachable(fn, src, disabled)
    return [b for b in exits(fn) if b in r]


def back_edges(fn, disabled=None):
    """(tail, head) edges where head dominates tail."""
    out = []
    reach = reachable(fn, 0, disabled)
    doms = dominators(fn, disabled)
    for b in reach:
        for s in succs(fn, b, disabled):
            if s in doms.get(b, ()):  # s dominates b
                out.append((b, s))
    return out


def dominators(fn, disabled=None):
    """Classic iterative dominator sets: doms[b] = set of blocks dominating b (incl. b)."""
    key = ("doms", frozenset(disabled) if disabled else None)
    if key in fn._cache:
        return fn._cache[key]
    reach = reachable(fn, 0, disabled)
    order = sorted(reach)
    preds = {b: [] for b in reach}
    for b in reach:
        for s in succs(fn, b, disabled):
            if s in preds:
                preds[s].append(b)
    doms = {b: set(reach) for b in reach}
    doms[0] = {0}
    changed = True
    while changed:
        changed = False
        for b in order:
            if b == 0:
                continue
            ps = [doms[p] for p in preds[b]]
            new = set.intersection(*ps) if ps else set()
            new = new | {b}
            if new != doms[b]:
                doms[b] = new
                changed = True
    fn._cache[key] = doms
    return doms


def natural_loop(fn, tail, head, disabled=None):
    """Blocks of the natural loop of back edge tail->head."""
    body = {head}
    stack = []
    if tail not in body:
        body.add(tail)
        stack.append(tail)
    preds = fn.preds()
    while stack:
        b = stack.pop()
        for p in preds[b]:
            if disabled and (p, b) in disabled:
                continue
            if p not in body:
                body.add(p)
                stack.append(p)
    return body


def loops(fn, disabled=None):
    """head -> set(blocks) for all natural loops (merged per head)."""
    out = {}
    for t, h in back_edges(fn, disabled):
        out.setdefault(h, set()).update(natural_loop(fn, t, h, disabled))
    return out


def loop_exit_edges(fn, body, disabled=None):
    out = []
    for b in body:
        for s in succs(fn, b, disabled):
            if s not in body:
                out.append((b, s))
    return out


def innermost_loop_of(fn, bb, disabled=None):
    best = None
    for h, body in loops(fn, disabled).items():
        if bb in body and (best is None or len(body) < len(best[1])):
            best = (h, body)
    return best


def postdominated_by(fn, bb, target_set, disabled=None):
    """Every path from bb (after terminator) to any return crosses target_set."""
    target_set = set(target_set)
    start = [s for s in succs(fn, bb, disabled) if s not in target_set]
    r = reachable(fn, start, disabled, blocked=target_set)
    return not any(b in r for b in exits(fn))


def ipdom_region(fn, switch_bb, disabled=None):
    """Blocks strictly between a branch and its immediate post-dominator.

    Returns (region_blocks, join_bb or None).  The join is the first block (in BFS
    order from the successors) that post-dominates switch_bb.
    """
    # post-dominators via reverse graph on the reachable normal CFG, with a virtual exit
    reach = reachable(fn, 0, disabled)
    EXIT = -1
    rsucc = {b: [] for b in reach}
    rsucc[EXIT] = []
    nodes = set(reach) | {EXIT}
    fsucc = {}
    for b in reach:
        ss = [s for s in succs(fn, b, disabled) if s in reach]
        if not ss:
            ss = [EXIT]
        fsucc[b] = ss
    fsucc[EXIT] = []
    pd = {b: set(nodes) for b in nodes}
    pd[EXIT] = {EXIT}
    changed = True
    while changed:
        changed = False
        for b in nodes:
            if b == EXIT:
                continue
            ss = [pd[s] for s in fsucc[b]]
            new = set.intersection(*ss) | {b} if ss else {b}
            if new != pd[b]:
                pd[b] = new
                changed = True
    cands = pd[switch_bb] - {switch_bb}
    # immediate post-dominator = the candidate that is post-dominated by all other candidates
    join = None
    for c in cands:
        if all(o in pd[c] for o in cands):
            join = c
            break
    blocked = {join} if join is not None and join != EXIT else set()
    region = reachable(fn, [s for s in succs(fn, switch_bb, disabled) if s not in blocked], disabled, blocked=blocked)
    return region, (join if join != EXIT else None)
