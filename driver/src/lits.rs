//! Literals of the expanded AST: format_args! templates, string / byte-string /
//! byte literals, each with file, line (outermost call site) and — when the
//! literal is a direct call argument — the callee (method name or path).

use crate::json::J;
use rustc_ast as ast;
use rustc_ast::visit::{self, Visitor};
use rustc_middle::ty::TyCtxt;
use rustc_span::Span;
use std::collections::HashMap;

struct V<'tcx> {
    tcx: TyCtxt<'tcx>,
    out: Vec<J>,
    ctx: HashMap<ast::NodeId, (String, usize)>,
    items: Vec<String>,
}

fn peel(e: &ast::Expr) -> &ast::Expr {
    match &e.kind {
        ast::ExprKind::AddrOf(_, _, inner) => peel(inner),
        ast::ExprKind::Paren(inner) => peel(inner),
        ast::ExprKind::Index(inner, _, _) => peel(inner),
        ast::ExprKind::Cast(inner, _) => peel(inner),
        _ => e,
    }
}

impl<'tcx> V<'tcx> {
    fn loc(&self, sp: Span) -> (String, usize, bool) {
        let exp = sp.from_expansion();
        let sp = sp.source_callsite();
        let sm = self.tcx.sess.source_map();
        let lo = sm.lookup_char_pos(sp.lo());
        (format!("{}", lo.file.name.prefer_local_unconditionally()), lo.line, exp)
    }
    fn push(&mut self, kind: &str, sp: Span, mut fields: Vec<(&'static str, J)>) {
        let (file, line, exp) = self.loc(sp);
        let mut o = vec![
            ("kind", J::s(kind)),
            ("file", J::S(file)),
            ("line", J::N(line as i128)),
            ("exp", J::B(exp)),
            ("item", J::s(self.items.join("::"))),
        ];
        o.append(&mut fields);
        self.out.push(J::O(o));
    }
    fn note_args<'a>(&mut self, callee: &str, args: impl Iterator<Item = &'a ast::Expr>) {
        for (i, a) in args.enumerate() {
            let p = peel(a);
            if let ast::ExprKind::Lit(_) = p.kind {
                self.ctx.insert(p.id, (callee.to_string(), i));
            }
        }
    }
}

impl<'a, 'tcx> Visitor<'a> for V<'tcx> {
    fn visit_item(&mut self, i: &'a ast::Item) {
        let name = match &i.kind {
            ast::ItemKind::Fn(f) => f.ident.name.to_string(),
            ast::ItemKind::Mod(_, id, _) => id.name.to_string(),
            ast::ItemKind::Const(c) => format!("const:{}", c.ident.name),
            ast::ItemKind::Static(s) => format!("static:{}", s.ident.name),
            ast::ItemKind::Impl(_) => "impl".to_string(),
            ast::ItemKind::Trait(t) => t.ident.name.to_string(),
            _ => "_".to_string(),
        };
        self.items.push(name);
        visit::walk_item(self, i);
        self.items.pop();
    }
    fn visit_assoc_item(&mut self, i: &'a ast::AssocItem, ctxt: visit::AssocCtxt) {
        let name = match &i.kind {
            ast::AssocItemKind::Fn(f) => f.ident.name.to_string(),
            ast::AssocItemKind::Const(c) => format!("const:{}", c.ident.name),
            _ => "_".to_string(),
        };
        self.items.push(name);
        visit::walk_assoc_item(self, i, ctxt);
        self.items.pop();
    }
    fn visit_expr(&mut self, e: &'a ast::Expr) {
        match &e.kind {
            ast::ExprKind::MethodCall(mc) => {
                let name = mc.seg.ident.name.to_string();
                self.note_args(&name, mc.args.iter().map(|a| &**a));
            }
            ast::ExprKind::Call(f, args) => {
                if let ast::ExprKind::Path(_, p) = &f.kind {
                    let name = p
                        .segments
                        .iter()
                        .map(|s| s.ident.name.to_string())
                        .collect::<Vec<_>>()
                        .join("::");
                    self.note_args(&name, args.iter().map(|a| &**a));
                }
            }
            ast::ExprKind::FormatArgs(fa) => {
                let mut pieces = Vec::new();
                for p in fa.template.iter() {
                    match p {
                        ast::FormatArgsPiece::Literal(sym) => {
                            pieces.push(J::O(vec![("lit", J::s(sym.as_str()))]))
                        }
                        ast::FormatArgsPiece::Placeholder(ph) => {
                            let o = &ph.format_options;
                            let width = match &o.width {
                                Some(ast::FormatCount::Literal(n)) => *n as i128,
                                Some(_) => -2,
                                None => -1,
                            };
                            let plain = o.precision.is_none()
                                && o.alignment.is_none()
                                && o.sign.is_none()
                                && !o.alternate
                                && o.debug_hex.is_none();
                            pieces.push(J::O(vec![
                                ("ph", J::B(true)),
                                ("trait", J::S(format!("{:?}", ph.format_trait))),
                                ("arg", J::N(ph.argument.index.unwrap_or(usize::MAX) as i128)),
                                ("width", J::N(width)),
                                ("zero", J::B(o.zero_pad)),
                                ("fill", J::S(o.fill.map(|c| c.to_string()).unwrap_or_default())),
                                ("plain", J::B(plain)),
                            ]))
                        }
                    }
                }
                self.push("fmt", fa.span, vec![("pieces", J::A(pieces))]);
            }
            ast::ExprKind::Lit(tl) => {
                let ctx = self.ctx.get(&e.id).cloned();
                let mut f: Vec<(&'static str, J)> = Vec::new();
                let kind;
                match ast::LitKind::from_token_lit(*tl) {
                    Ok(ast::LitKind::Str(sym, _)) => {
                        kind = "str";
                        f.push(("val", J::s(sym.as_str())));
                    }
                    Ok(ast::LitKind::ByteStr(bytes, _)) => {
                        kind = "bytes";
                        // bytes as latin-1 string (lossless)
                        let s: String = bytes.as_byte_str().iter().map(|b| *b as char).collect();
                        f.push(("val", J::S(s)));
                    }
                    Ok(ast::LitKind::Byte(b)) => {
                        kind = "byte";
                        f.push(("val", J::S((b as char).to_string())));
                    }
                    Ok(ast::LitKind::Char(c)) => {
                        kind = "char";
                        f.push(("val", J::S(c.to_string())));
                    }
                    Ok(ast::LitKind::Int(n, _)) => {
                        kind = "int";
                        f.push(("val", J::N(n.get() as i128)));
                    }
                    _ => {
                        kind = "";
                    }
                }
                if !kind.is_empty() && (kind != "int" || ctx.is_some()) {
                    if let Some((callee, idx)) = ctx {
                        f.push(("callee", J::S(callee)));
                        f.push(("argidx", J::N(idx as i128)));
                    }
                    self.push(kind, e.span, f);
                }
            }
            _ => {}
        }
        visit::walk_expr(self, e);
    }
}

pub fn collect<'tcx>(tcx: TyCtxt<'tcx>) -> Vec<J> {
    let resolver = tcx.resolver_for_lowering().borrow();
    let krate = &resolver.1;
    let mut v = V { tcx, out: Vec::new(), ctx: HashMap::new(), items: Vec::new() };
    visit::walk_crate(&mut v, krate);
    v.out
}
