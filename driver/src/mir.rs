//! MIR, ADT and impl facts.

use crate::json::J;
use rustc_hir::def::DefKind;
use rustc_hir::def_id::{DefId, LocalDefId};
use rustc_middle::mir::{
    self, AggregateKind, AssertKind, BasicBlock, Body, Operand, Place, ProjectionElem, Rvalue,
    StatementKind, TerminatorKind,
};
use rustc_middle::ty::print::{with_crate_prefix, with_no_trimmed_paths, with_no_visible_paths};
use rustc_middle::ty::{self, Ty, TyCtxt};
use rustc_span::Span;

pub struct Cx<'tcx> {
    tcx: TyCtxt<'tcx>,
}

fn n<T: TryInto<i128>>(x: T) -> J {
    J::N(x.try_into().ok().unwrap_or(-1))
}

impl<'tcx> Cx<'tcx> {
    fn path(&self, did: DefId) -> String {
        with_crate_prefix!(with_no_visible_paths!(with_no_trimmed_paths!(self.tcx.def_path_str(did))))
    }

    fn loc(&self, sp: Span) -> (String, usize, usize, bool) {
        let exp = sp.from_expansion();
        let sp = sp.source_callsite();
        let sm = self.tcx.sess.source_map();
        let lo = sm.lookup_char_pos(sp.lo());
        let hi = sm.lookup_char_pos(sp.hi());
        (format!("{}", lo.file.name.prefer_local_unconditionally()), lo.line, hi.line, exp)
    }

    fn span_j(&self, sp: Span) -> J {
        let (_f, lo, _hi, exp) = self.loc(sp);
        if exp {
            J::A(vec![n(lo), J::N(1)])
        } else {
            J::A(vec![n(lo)])
        }
    }

    fn ty_s(&self, t: Ty<'tcx>) -> String {
        with_crate_prefix!(with_no_visible_paths!(with_no_trimmed_paths!(format!("{}", t))))
    }

    fn adt_info(&self, t: Ty<'tcx>) -> Option<(ty::AdtDef<'tcx>, String)> {
        match t.kind() {
            ty::Adt(adt, _) => Some((*adt, self.path(adt.did()))),
            _ => None,
        }
    }

    fn place_j(&self, body: &Body<'tcx>, p: &Place<'tcx>) -> J {
        let mut proj = Vec::new();
        for (base, elem) in p.iter_projections() {
            let bty = base.ty(body, self.tcx);
            let e = match elem {
                ProjectionElem::Deref => J::s("deref"),
                ProjectionElem::Field(f, fty) => {
                    let mut o = vec![("f", n(f.as_usize()))];
                    match bty.ty.kind() {
                        ty::Adt(adt, _) => {
                            let v = match bty.variant_index {
                                Some(vi) => adt.variant(vi),
                                None => {
                                    if adt.is_enum() {
                                        // should not happen without a downcast
                                        adt.variants().iter().next().unwrap()
                                    } else {
                                        adt.non_enum_variant()
                                    }
                                }
                            };
                            o.push(("name", J::s(v.fields[f].name.as_str())));
                            o.push(("adt", J::S(self.path(adt.did()))));
                            if adt.is_enum() {
                                o.push(("variant", J::s(v.name.as_str())));
                            }
                        }
                        ty::Closure(did, _) => {
                            o.push(("closure", J::S(self.path(*did))));
                        }
                        ty::Tuple(_) => {
                            o.push(("tuple", J::B(true)));
                        }
                        _ => {}
                    }
                    o.push(("fty", J::S(self.ty_s(fty))));
                    J::O(o)
                }
                ProjectionElem::Index(l) => J::O(vec![("index", n(l.as_usize()))]),
                ProjectionElem::ConstantIndex { offset, min_length, from_end } => J::O(vec![
                    ("cindex", n(offset)),
                    ("min_length", n(min_length)),
                    ("from_end", J::B(from_end)),
                ]),
                ProjectionElem::Subslice { from, to, from_end } => {
                    J::O(vec![("subslice", J::A(vec![n(from), n(to), J::B(from_end)]))])
                }
                ProjectionElem::Downcast(name, vi) => {
                    let vname = match (name, bty.ty.kind()) {
                        (Some(s), _) => s.to_string(),
                        (None, ty::Adt(adt, _)) => adt.variant(vi).name.to_string(),
                        _ => format!("{}", vi.as_usize()),
                    };
                    J::O(vec![("downcast", J::S(vname))])
                }
                other => J::O(vec![("other", J::S(format!("{:?}", other)))]),
            };
            proj.push(e);
        }
        let mut o = vec![("l", n(p.local.as_usize()))];
        if !proj.is_empty() {
            o.push(("p", J::A(proj)));
            o.push(("ty", J::S(self.ty_s(p.ty(body, self.tcx).ty))));
        }
        J::O(o)
    }

    fn const_j(&self, owner: DefId, c: &mir::ConstOperand<'tcx>) -> J {
        let tcx = self.tcx;
        let t = c.const_.ty();
        let mut o: Vec<(&'static str, J)> = vec![("k", J::s("const")), ("ty", J::S(self.ty_s(t)))];
        match t.kind() {
            ty::FnDef(did, args) => {
                o.push(("fn", J::S(self.path(*did))));
                o.push(("fnargs", J::A(args.iter().map(|a| J::S(format!("{}", a))).collect())));
                if let Some(r) = self.resolve(owner, *did, args) {
                    o.push(("res", r));
                }
                return J::O(o);
            }
            ty::Closure(did, _) => {
                o.push(("closure", J::S(self.path(*did))));
                return J::O(o);
            }
            _ => {}
        }
        if let mir::Const::Unevaluated(u, _) = c.const_ {
            o.push(("item", J::S(self.path(u.def))));
            if u.promoted.is_some() {
                o.push(("promoted", n(u.promoted.unwrap().as_usize())));
            }
        }
        let tenv = ty::TypingEnv::post_analysis(tcx, owner);
        if t.is_integral() || t.is_bool() || t.is_char() {
            if let Some(si) = c.const_.try_eval_scalar_int(tcx, tenv) {
                let size = si.size();
                let v: i128 = if t.is_signed() {
                    si.to_int(size)
                } else {
                    let u = si.to_uint(size);
                    if u > i128::MAX as u128 { -1 } else { u as i128 }
                };
                o.push(("int", J::N(v)));
            }
        } else if let Some(bytes) = self.const_bytes(owner, c) {
            let s: String = bytes.iter().map(|b| *b as char).collect();
            o.push(("bytes", J::S(s)));
        }
        o.push(("dbg", J::S(format!("{}", c.const_))));
        J::O(o)
    }

    /// Bytes of a `&[u8]`, `&[u8; N]` or `&str` constant.
    fn const_bytes(&self, owner: DefId, c: &mir::ConstOperand<'tcx>) -> Option<Vec<u8>> {
        let tcx = self.tcx;
        let t = c.const_.ty();
        let ty::Ref(_, inner, _) = t.kind() else { return None };
        let tenv = ty::TypingEnv::post_analysis(tcx, owner);
        let val = c.const_.eval(tcx, tenv, c.span).ok()?;
        match inner.kind() {
            ty::Str => val.try_get_slice_bytes_for_diagnostics(tcx).map(|b| b.to_vec()),
            ty::Slice(e) if *e == tcx.types.u8 => {
                val.try_get_slice_bytes_for_diagnostics(tcx).map(|b| b.to_vec())
            }
            ty::Array(e, len) if *e == tcx.types.u8 => {
                let len = len.try_to_target_usize(tcx)? as usize;
                if let mir::ConstValue::Scalar(mir::interpret::Scalar::Ptr(ptr, _)) = val {
                    let (prov, offset) = ptr.into_raw_parts();
                    let alloc = tcx.global_alloc(prov.alloc_id()).unwrap_memory();
                    let start = offset.bytes() as usize;
                    let bytes = alloc
                        .inner()
                        .inspect_with_uninit_and_ptr_outside_interpreter(start..start + len);
                    Some(bytes.to_vec())
                } else {
                    None
                }
            }
            _ => None,
        }
    }

    fn resolve(&self, owner: DefId, did: DefId, args: ty::GenericArgsRef<'tcx>) -> Option<J> {
        let tcx = self.tcx;
        let mut o: Vec<(&'static str, J)> = Vec::new();
        o.push(("crate", J::s(tcx.crate_name(did.krate).as_str())));
        if let Some(tr) = tcx.trait_of_assoc(did) {
            o.push(("trait", J::S(self.path(tr))));
            if args.len() > 0 {
                if let Some(t) = args[0].as_type() {
                    o.push(("self_ty", J::S(self.ty_s(t))));
                    if let ty::Closure(cd, _) = t.kind() {
                        o.push(("self_closure", J::S(self.path(*cd))));
                    }
                    if let ty::FnDef(fd, _) = t.kind() {
                        o.push(("self_fn", J::S(self.path(*fd))));
                    }
                    if let ty::Dynamic(..) = t.kind() {
                        o.push(("self_dyn", J::B(true)));
                    }
                }
            }
        }
        let tenv = ty::TypingEnv::post_analysis(tcx, owner);
        // Skip resolution when the args still mention the caller's type parameters in a way
        // try_resolve cannot handle: it simply returns Ok(None) then.
        match ty::Instance::try_resolve(tcx, tenv, did, args) {
            Ok(Some(inst)) => {
                let kind = match inst.def {
                    ty::InstanceKind::Item(_) => "item",
                    ty::InstanceKind::Virtual(..) => "virtual",
                    ty::InstanceKind::ClosureOnceShim { .. } => "closure_once_shim",
                    ty::InstanceKind::FnPtrShim(..) => "fn_ptr_shim",
                    ty::InstanceKind::ReifyShim(..) => "reify_shim",
                    ty::InstanceKind::DropGlue(..) => "drop_glue",
                    ty::InstanceKind::CloneShim(..) => "clone_shim",
                    ty::InstanceKind::Intrinsic(..) => "intrinsic",
                    _ => "other",
                };
                o.push(("rkind", J::s(kind)));
                o.push(("rpath", J::S(self.path(inst.def_id()))));
                o.push(("rcrate", J::s(tcx.crate_name(inst.def_id().krate).as_str())));
                o.push(("rlocal", J::B(inst.def_id().is_local())));
            }
            Ok(None) => {
                o.push(("rkind", J::s("generic")));
            }
            Err(_) => {
                o.push(("rkind", J::s("error")));
            }
        }
        Some(J::O(o))
    }

    fn operand_j(&self, owner: DefId, body: &Body<'tcx>, op: &Operand<'tcx>) -> J {
        match op {
            Operand::Copy(p) => J::O(vec![("k", J::s("copy")), ("pl", self.place_j(body, p))]),
            Operand::Move(p) => J::O(vec![("k", J::s("move")), ("pl", self.place_j(body, p))]),
            Operand::Constant(c) => self.const_j(owner, c),
            #[allow(unreachable_patterns)]
            other => J::O(vec![("k", J::s("other")), ("dbg", J::S(format!("{:?}", other)))]),
        }
    }

    fn rvalue_j(&self, owner: DefId, body: &Body<'tcx>, rv: &Rvalue<'tcx>) -> J {
        let tcx = self.tcx;
        match rv {
            Rvalue::Use(op, ..) => {
                J::O(vec![("k", J::s("use")), ("op", self.operand_j(owner, body, op))])
            }
            Rvalue::CopyForDeref(p) => J::O(vec![
                ("k", J::s("use")),
                ("op", J::O(vec![("k", J::s("copy")), ("pl", self.place_j(body, p))])),
            ]),
            Rvalue::Repeat(op, ct) => J::O(vec![
                ("k", J::s("repeat")),
                ("op", self.operand_j(owner, body, op)),
                ("count", J::S(format!("{}", ct))),
            ]),
            Rvalue::Ref(_, bk, p) => J::O(vec![
                ("k", J::s("ref")),
                ("mut", J::B(matches!(bk, mir::BorrowKind::Mut { .. }))),
                ("pl", self.place_j(body, p)),
            ]),
            Rvalue::RawPtr(kind, p) => J::O(vec![
                ("k", J::s("rawptr")),
                ("mut", J::B(format!("{:?}", kind).contains("Mut"))),
                ("pl", self.place_j(body, p)),
            ]),
            Rvalue::Cast(kind, op, t) => J::O(vec![
                ("k", J::s("cast")),
                ("ck", J::S(format!("{:?}", kind))),
                ("op", self.operand_j(owner, body, op)),
                ("ty", J::S(self.ty_s(*t))),
                ("from", J::S(self.ty_s(op.ty(body, tcx)))),
            ]),
            Rvalue::BinaryOp(bop, ab) => {
                let (a, b) = &**ab;
                J::O(vec![
                    ("k", J::s("bin")),
                    ("op", J::S(format!("{:?}", bop))),
                    ("a", self.operand_j(owner, body, a)),
                    ("b", self.operand_j(owner, body, b)),
                    ("aty", J::S(self.ty_s(a.ty(body, tcx)))),
                ])
            }
            Rvalue::UnaryOp(uop, a) => J::O(vec![
                ("k", J::s("un")),
                ("op", J::S(format!("{:?}", uop))),
                ("a", self.operand_j(owner, body, a)),
                ("aty", J::S(self.ty_s(a.ty(body, tcx)))),
            ]),
            Rvalue::Discriminant(p) => {
                let pt = p.ty(body, tcx).ty;
                let mut o = vec![("k", J::s("discr")), ("pl", self.place_j(body, p))];
                if let Some((adt, path)) = self.adt_info(pt) {
                    o.push(("adt", J::S(path)));
                    if adt.is_enum() {
                        let vs: Vec<J> = adt
                            .discriminants(tcx)
                            .map(|(vi, d)| {
                                J::A(vec![
                                    J::N(d.val as i128),
                                    J::s(adt.variant(vi).name.as_str()),
                                ])
                            })
                            .collect();
                        o.push(("variants", J::A(vs)));
                    }
                }
                o.push(("pty", J::S(self.ty_s(pt))));
                J::O(o)
            }
            Rvalue::Aggregate(kind, fields) => {
                let mut o = vec![("k", J::s("agg"))];
                match &**kind {
                    AggregateKind::Array(t) => {
                        o.push(("ak", J::s("array")));
                        o.push(("ety", J::S(self.ty_s(*t))));
                    }
                    AggregateKind::Tuple => o.push(("ak", J::s("tuple"))),
                    AggregateKind::Adt(did, vi, _, _, _) => {
                        let adt = tcx.adt_def(*did);
                        o.push(("ak", J::s("adt")));
                        o.push(("adt", J::S(self.path(*did))));
                        let v = adt.variant(*vi);
                        o.push(("variant", J::s(v.name.as_str())));
                        o.push((
                            "fields",
                            J::A(v.fields.iter().map(|f| J::s(f.name.as_str())).collect()),
                        ));
                    }
                    AggregateKind::Closure(did, _) => {
                        o.push(("ak", J::s("closure")));
                        o.push(("closure", J::S(self.path(*did))));
                    }
                    other => {
                        o.push(("ak", J::s("other")));
                        o.push(("dbg", J::S(format!("{:?}", other))));
                    }
                }
                o.push((
                    "ops",
                    J::A(fields.iter().map(|f| self.operand_j(owner, body, f)).collect()),
                ));
                J::O(o)
            }
            other => J::O(vec![("k", J::s("other")), ("dbg", J::S(format!("{:?}", other)))]),
        }
    }

    fn bb(&self, b: BasicBlock) -> J {
        n(b.as_usize())
    }

    fn body_j(&self, owner: DefId, body: &Body<'tcx>) -> Vec<(&'static str, J)> {
        let tcx = self.tcx;
        let mut locals = Vec::new();
        for (_l, d) in body.local_decls.iter_enumerated() {
            locals.push(J::O(vec![
                ("ty", J::S(self.ty_s(d.ty))),
                ("mut", J::B(d.mutability.is_mut())),
            ]));
        }
        let mut dbg = Vec::new();
        for v in body.var_debug_info.iter() {
            if let mir::VarDebugInfoContents::Place(p) = &v.value {
                dbg.push(J::O(vec![
                    ("name", J::s(v.name.as_str())),
                    ("pl", self.place_j(body, p)),
                    ("arg", match v.argument_index { Some(i) => n(i), None => J::Null }),
                ]));
            }
        }
        let mut blocks = Vec::new();
        for (_bb, data) in body.basic_blocks.iter_enumerated() {
            let mut stmts = Vec::new();
            for st in data.statements.iter() {
                match &st.kind {
                    StatementKind::Assign(bx) => {
                        let (pl, rv) = &**bx;
                        stmts.push(J::O(vec![
                            ("k", J::s("assign")),
                            ("lhs", self.place_j(body, pl)),
                            ("rv", self.rvalue_j(owner, body, rv)),
                            ("sp", self.span_j(st.source_info.span)),
                        ]));
                    }
                    StatementKind::SetDiscriminant { place, variant_index } => {
                        let pt = place.ty(body, tcx).ty;
                        let vname = match pt.kind() {
                            ty::Adt(adt, _) => adt.variant(*variant_index).name.to_string(),
                            _ => format!("{}", variant_index.as_usize()),
                        };
                        stmts.push(J::O(vec![
                            ("k", J::s("setdiscr")),
                            ("lhs", self.place_j(body, place)),
                            ("variant", J::S(vname)),
                            ("sp", self.span_j(st.source_info.span)),
                        ]));
                    }
                    StatementKind::StorageLive(_)
                    | StatementKind::StorageDead(_)
                    | StatementKind::Nop => {}
                    StatementKind::Intrinsic(i) => {
                        stmts.push(J::O(vec![
                            ("k", J::s("intrinsic")),
                            ("dbg", J::S(format!("{:?}", i))),
                            ("sp", self.span_j(st.source_info.span)),
                        ]));
                    }
                    _ => {}
                }
            }
            let term = data.terminator();
            let sp = self.span_j(term.source_info.span);
            let t = match &term.kind {
                TerminatorKind::Goto { target } => {
                    J::O(vec![("k", J::s("goto")), ("target", self.bb(*target))])
                }
                TerminatorKind::SwitchInt { discr, targets } => {
                    let ts: Vec<J> = targets
                        .iter()
                        .map(|(v, b)| J::A(vec![J::N(v as i128), self.bb(b)]))
                        .collect();
                    J::O(vec![
                        ("k", J::s("switch")),
                        ("discr", self.operand_j(owner, body, discr)),
                        ("dty", J::S(self.ty_s(discr.ty(body, tcx)))),
                        ("targets", J::A(ts)),
                        ("otherwise", self.bb(targets.otherwise())),
                        ("sp", sp),
                    ])
                }
                TerminatorKind::Return => J::O(vec![("k", J::s("return")), ("sp", sp)]),
                TerminatorKind::Unreachable => J::O(vec![("k", J::s("unreachable"))]),
                TerminatorKind::UnwindResume => J::O(vec![("k", J::s("resume"))]),
                TerminatorKind::UnwindTerminate(_) => J::O(vec![("k", J::s("terminate"))]),
                TerminatorKind::Drop { place, target, unwind, .. } => J::O(vec![
                    ("k", J::s("drop")),
                    ("pl", self.place_j(body, place)),
                    ("pty", J::S(self.ty_s(place.ty(body, tcx).ty))),
                    ("target", self.bb(*target)),
                    ("unwind", self.unwind_j(unwind)),
                    ("sp", sp),
                ]),
                TerminatorKind::Call { func, args, destination, target, unwind, fn_span, .. } => {
                    let mut o = vec![("k", J::s("call"))];
                    o.push(("func", self.operand_j(owner, body, func)));
                    o.push((
                        "args",
                        J::A(args.iter().map(|a| self.operand_j(owner, body, &a.node)).collect()),
                    ));
                    o.push((
                        "argtys",
                        J::A(
                            args.iter()
                                .map(|a| J::S(self.ty_s(a.node.ty(body, tcx))))
                                .collect(),
                        ),
                    ));
                    o.push(("dest", self.place_j(body, destination)));
                    o.push(("dty", J::S(self.ty_s(destination.ty(body, tcx).ty))));
                    o.push(("target", match target { Some(t) => self.bb(*t), None => J::Null }));
                    o.push(("unwind", self.unwind_j(unwind)));
                    o.push(("sp", self.span_j(*fn_span)));
                    o.push(("tsp", sp));
                    J::O(o)
                }
                TerminatorKind::Assert { cond, expected, msg, target, unwind } => {
                    let (kind, ops): (String, Vec<J>) = match &**msg {
                        AssertKind::BoundsCheck { len, index } => (
                            "BoundsCheck".into(),
                            vec![
                                self.operand_j(owner, body, len),
                                self.operand_j(owner, body, index),
                            ],
                        ),
                        AssertKind::Overflow(op, a, b) => (
                            format!("Overflow({:?})", op),
                            vec![self.operand_j(owner, body, a), self.operand_j(owner, body, b)],
                        ),
                        AssertKind::OverflowNeg(a) => {
                            ("OverflowNeg".into(), vec![self.operand_j(owner, body, a)])
                        }
                        AssertKind::DivisionByZero(a) => {
                            ("DivisionByZero".into(), vec![self.operand_j(owner, body, a)])
                        }
                        AssertKind::RemainderByZero(a) => {
                            ("RemainderByZero".into(), vec![self.operand_j(owner, body, a)])
                        }
                        other => {
                            let s = format!("{:?}", other);
                            let k = s.split(|c: char| !c.is_alphanumeric()).next().unwrap_or("").to_string();
                            (k, vec![])
                        }
                    };
                    J::O(vec![
                        ("k", J::s("assert")),
                        ("cond", self.operand_j(owner, body, cond)),
                        ("expected", J::B(*expected)),
                        ("msg", J::S(kind)),
                        ("ops", J::A(ops)),
                        ("target", self.bb(*target)),
                        ("unwind", self.unwind_j(unwind)),
                        ("sp", sp),
                    ])
                }
                other => J::O(vec![
                    ("k", J::s("other")),
                    ("dbg", J::S(format!("{:?}", other))),
                    (
                        "succ",
                        J::A(other.successors().map(|b| self.bb(b)).collect()),
                    ),
                ]),
            };
            blocks.push(J::O(vec![
                ("cleanup", J::B(data.is_cleanup)),
                ("stmts", J::A(stmts)),
                ("term", t),
            ]));
        }
        vec![
            ("arg_count", n(body.arg_count)),
            ("locals", J::A(locals)),
            ("dbg", J::A(dbg)),
            ("blocks", J::A(blocks)),
        ]
    }

    fn unwind_j(&self, u: &mir::UnwindAction) -> J {
        match u {
            mir::UnwindAction::Cleanup(b) => self.bb(*b),
            _ => J::Null,
        }
    }

    fn fn_j(&self, ldid: LocalDefId) -> J {
        let tcx = self.tcx;
        let did = ldid.to_def_id();
        let kind = tcx.def_kind(did);
        let body = tcx.optimized_mir(did);
        let (file, lo, hi, _) = self.loc(body.span);
        let mut o: Vec<(&'static str, J)> = vec![
            ("id", J::S(self.path(did))),
            ("kind", J::S(format!("{:?}", kind))),
            ("file", J::S(file)),
            ("lo", n(lo)),
            ("hi", n(hi)),
            ("name", J::S(tcx.opt_item_name(did).map(|s| s.to_string()).unwrap_or_default())),
        ];
        let parent = tcx.parent(did);
        o.push(("parent", J::S(self.path(parent))));
        if matches!(kind, DefKind::Fn | DefKind::AssocFn) {
            o.push(("vis", J::S(format!("{:?}", tcx.visibility(did)))));
        }
        if kind == DefKind::AssocFn {
            if let DefKind::Impl { of_trait } = tcx.def_kind(parent) {
                let self_ty = tcx.type_of(parent).instantiate_identity().skip_norm_wip();
                o.push(("impl_self", J::S(self.ty_s(self_ty))));
                if let ty::Adt(adt, _) = self_ty.kind() {
                    o.push(("impl_adt", J::S(self.path(adt.did()))));
                }
                if of_trait {
                    let tr = tcx.impl_trait_ref(parent).instantiate_identity().skip_norm_wip();
                    o.push(("impl_trait", J::S(self.path(tr.def_id))));
                    let ai = tcx.associated_item(did);
                    if let Some(t) = ai.trait_item_def_id() {
                        o.push(("trait_item", J::S(self.path(t))));
                    }
                }
            } else if let DefKind::Trait = tcx.def_kind(parent) {
                o.push(("trait_default", J::S(self.path(parent))));
            }
        }
        o.append(&mut self.body_j(did, body));
        let promoted = tcx.promoted_mir(did);
        if !promoted.is_empty() {
            let ps: Vec<J> = promoted.iter().map(|b| J::O(self.body_j(did, b))).collect();
            o.push(("promoted", J::A(ps)));
        }
        J::O(o)
    }
}

pub fn collect<'tcx>(tcx: TyCtxt<'tcx>) -> Vec<(&'static str, J)> {
    let cx = Cx { tcx };
    let mut fns = Vec::new();
    let mut consts = Vec::new();
    for ldid in tcx.mir_keys(()).iter() {
        let did = ldid.to_def_id();
        match tcx.def_kind(did) {
            DefKind::Fn | DefKind::AssocFn | DefKind::Closure => {
                // constructors of tuple structs are DefKind::Ctor and are skipped
                fns.push(cx.fn_j(*ldid));
            }
            DefKind::Const { .. } | DefKind::AssocConst { .. } | DefKind::Static { .. } => {
                let t = tcx.type_of(did).instantiate_identity().skip_norm_wip();
                let (file, lo, _hi, _) = cx.loc(tcx.def_span(did));
                consts.push(J::O(vec![
                    ("id", J::S(cx.path(did))),
                    ("ty", J::S(cx.ty_s(t))),
                    ("file", J::S(file)),
                    ("line", n(lo)),
                ]));
            }
            _ => {}
        }
    }
    // ADTs
    let mut adts = Vec::new();
    let mut impls = Vec::new();
    let mut traits = Vec::new();
    for id in tcx.hir_crate_items(()).definitions() {
        let did = id.to_def_id();
        match tcx.def_kind(did) {
            DefKind::Struct | DefKind::Enum | DefKind::Union => {
                let adt = tcx.adt_def(did);
                let mut vs = Vec::new();
                let discrs: Vec<i128> = if adt.is_enum() {
                    adt.discriminants(tcx).map(|(_, d)| d.val as i128).collect()
                } else {
                    vec![0]
                };
                for (i, v) in adt.variants().iter().enumerate() {
                    let fs: Vec<J> = v
                        .fields
                        .iter()
                        .map(|f| {
                            let ft = tcx.type_of(f.did).instantiate_identity().skip_norm_wip();
                            J::O(vec![
                                ("name", J::s(f.name.as_str())),
                                ("ty", J::S(cx.ty_s(ft))),
                                ("vis", J::S(format!("{:?}", f.vis))),
                            ])
                        })
                        .collect();
                    vs.push(J::O(vec![
                        ("name", J::s(v.name.as_str())),
                        ("discr", J::N(*discrs.get(i).unwrap_or(&-1))),
                        ("fields", J::A(fs)),
                    ]));
                }
                adts.push(J::O(vec![
                    ("id", J::S(cx.path(did))),
                    ("kind", J::S(format!("{:?}", tcx.def_kind(did)))),
                    ("variants", J::A(vs)),
                ]));
            }
            DefKind::Impl { of_trait } => {
                let self_ty = tcx.type_of(did).instantiate_identity().skip_norm_wip();
                let mut o = vec![("id", J::S(cx.path(did))), ("self", J::S(cx.ty_s(self_ty)))];
                if let ty::Adt(adt, _) = self_ty.kind() {
                    o.push(("self_adt", J::S(cx.path(adt.did()))));
                }
                if of_trait {
                    let tr = tcx.impl_trait_ref(did).instantiate_identity().skip_norm_wip();
                    o.push(("trait", J::S(cx.path(tr.def_id))));
                }
                let items: Vec<J> = tcx
                    .associated_items(did)
                    .in_definition_order()
                    .filter(|ai| ai.is_fn())
                    .map(|ai| {
                        J::O(vec![
                            ("name", J::s(ai.name().as_str())),
                            ("id", J::S(cx.path(ai.def_id))),
                            (
                                "trait_item",
                                match ai.trait_item_def_id() {
                                    Some(t) => J::S(cx.path(t)),
                                    None => J::Null,
                                },
                            ),
                        ])
                    })
                    .collect();
                o.push(("items", J::A(items)));
                impls.push(J::O(o));
            }
            DefKind::Trait => {
                let items: Vec<J> = tcx
                    .associated_items(did)
                    .in_definition_order()
                    .filter(|ai| ai.is_fn())
                    .map(|ai| {
                        J::O(vec![
                            ("name", J::s(ai.name().as_str())),
                            ("id", J::S(cx.path(ai.def_id))),
                            ("has_default", J::B(ai.defaultness(tcx).has_value())),
                        ])
                    })
                    .collect();
                traits.push(J::O(vec![("id", J::S(cx.path(did))), ("items", J::A(items))]));
            }
            _ => {}
        }
    }
    vec![
        ("fns", J::A(fns)),
        ("consts", J::A(consts)),
        ("adts", J::A(adts)),
        ("impls", J::A(impls)),
        ("traits", J::A(traits)),
    ]
}
