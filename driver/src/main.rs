//! rq-facts: a rustc_private driver that dumps the type-checked program
//! (MIR with resolved callees, ADTs, trait impls, literals of the expanded AST)
//! of each workspace crate as one JSON fact file.
//!
//! Used as RUSTC_WORKSPACE_WRAPPER: argv[1] is the real rustc path and is dropped.
//! Output: $RQ_FACTS_DIR/<crate_name>.<crate_type>.json  (one write per process).

#![feature(rustc_private)]

extern crate rustc_abi;
extern crate rustc_ast;
extern crate rustc_driver;
extern crate rustc_hir;
extern crate rustc_interface;
extern crate rustc_middle;
extern crate rustc_span;

mod json;
mod lits;
mod mir;

use json::J;
use rustc_driver::Compilation;
use rustc_interface::interface::Compiler;
use rustc_middle::ty::TyCtxt;

struct Cb {
    lits: Vec<J>,
}

impl rustc_driver::Callbacks for Cb {
    fn after_expansion<'tcx>(&mut self, _c: &Compiler, tcx: TyCtxt<'tcx>) -> Compilation {
        if std::env::var("RQ_FACTS_DIR").is_ok() {
            self.lits = lits::collect(tcx);
        }
        Compilation::Continue
    }

    fn after_analysis<'tcx>(&mut self, _c: &Compiler, tcx: TyCtxt<'tcx>) -> Compilation {
        let Ok(dir) = std::env::var("RQ_FACTS_DIR") else {
            return Compilation::Continue;
        };
        let crate_name = tcx.crate_name(rustc_hir::def_id::LOCAL_CRATE).to_string();
        let only = std::env::var("RQ_FACTS_CRATES").unwrap_or_default();
        if !only.is_empty() && !only.split(',').any(|c| c == crate_name) {
            return Compilation::Continue;
        }
        let kind = if tcx
            .crate_types()
            .iter()
            .any(|t| matches!(t, rustc_session_crate_type::Executable))
        {
            "bin"
        } else {
            "lib"
        };
        let mut facts = mir::collect(tcx);
        facts.push(("literals", J::A(std::mem::take(&mut self.lits))));
        facts.insert(0, ("crate", J::s(&crate_name)));
        facts.insert(1, ("crate_kind", J::s(kind)));
        facts.insert(
            2,
            ("nonce", J::s(std::env::var("RQ_FACTS_NONCE").unwrap_or_default())),
        );
        let mut out = String::new();
        J::O(facts).write(&mut out);
        let path = format!("{}/{}.{}.json", dir, crate_name, kind);
        std::fs::write(&path, out).expect("cannot write fact file");
        Compilation::Continue
    }
}

use rustc_session::config::CrateType as rustc_session_crate_type;
extern crate rustc_session;

fn main() {
    let mut args: Vec<String> = std::env::args().collect();
    // RUSTC_WORKSPACE_WRAPPER: argv[1] is the path of the real rustc.
    if args.len() > 1 && (args[1].ends_with("rustc") || args[1].contains("/rustc")) {
        args.remove(1);
    }
    let mut cb = Cb { lits: Vec::new() };
    rustc_driver::run_compiler(&args, &mut cb);
}
